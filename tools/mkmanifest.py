#!/usr/bin/env python3
"""Writes MANIFEST.json from the table below (kept as a script so the file stays schema-valid)."""
import json, os
HERE = os.path.dirname(os.path.abspath(__file__))
V = os.path.dirname(HERE)

NOTE = ("Trusted: Lean 4.33.0 kernel; axioms ⊆ {propext, Classical.choice, Quot.sound} (printed per theorem on every run); "
        "the hand-written model is tied to the Rust code by differential execution on the cases of this run only; "
        "tools/extract.py regenerates constants/tables; Rust std behaviour listed in DESIGN.md section 7 is modelled, not verified.")

CLAIMED = {
    "C10": ("Theorems c10_total/c10_stable/c10_reject_* about the slice-for-slice model of Packet::deserialize hold for every byte string; "
            "the model is compared with the real decoder (under catch_unwind) on exhaustive short strings, all u16 prefixes and mutated datagrams, "
            "and an independent RFC rejection oracle is evaluated on the implementation's own results.", "5/C10",
            "Lean 4 proof over executable model + differential correspondence + RFC oracle on implementation output"),
    "C11": ("c11_decode_encode (round trip for every well-formed packet of all six kinds), layout equations, enum inverses over all u16 and "
            "decimal round trip are kernel-checked; the implementation's encoder is compared byte-for-byte with an independent RFC encoder and with the model.", "5/C11",
            "Lean 4 proof over executable model + differential correspondence + independent RFC encoder"),
}
CLAIMED.update({
    "C01": ("c01_data_is_slice: for every file, block size >= 1, window size <= 65535, repeat count and every receive history (arbitrary ACK numbers, ERRORs, stray packets, time-outs) "
            "each emitted datagram is DATA(k mod 65536, bytes [(k-1)b,kb)) with 1<=k<=N; c01_reassembly_small: any loss/duplication/reordering of the emitted datagrams gives an in-order client "
            "a prefix of whole blocks and, on completion, the identical file (N<=65535; beyond that see C15/closed loop). The real Worker::send runs the same scripts over a scripted socket and is diffed against the model; "
            "the statement is also evaluated directly on the implementation's trace.", "5/C01",
            "Lean 4 inductive invariant over sender model + scripted-socket differential correspondence + trace oracle"),
    "C02": ("c02_ack_implies_stored, c02_accept_in_sequence, c02_final_file, c02_conformant_sender over all reachable receiver states and all events (arbitrary block numbers/payloads, duplicates, stray packets, failures); "
            "the real Worker::receive runs the scripts on a real file whose content is read from disk at every ACK.", "5/C02",
            "Lean 4 inductive invariant over receiver model + scripted-socket differential correspondence + trace oracle"),
    "C07": ("c07_stop_on_final_ack, c07_stop_on_error, c07_handshake, c07_never_beyond_final, c07_bounded_silence (MAX_RETRIES from the source), c07_quiet_after_end and the receiver twins, for all states/events; "
            "tied to the real workers by scripted runs with silence/ERROR at every kind of point.", "5/C07",
            "Lean 4 proof over sender/receiver models + scripted-socket differential correspondence + trace oracle"),
    "C08": ("c08_outstanding_le_w, c08_cumulative, c08_burst_causes, c08_stale_ack_is_noop (+ c08_duplicate_ack_is_stale for every windowsize <= 65535), c08_receiver_acks_by_w; "
            "scripted runs with the virtual clock just below/at the timeout and windowsize 65534/65535.", "5/C08",
            "Lean 4 proof over sender/receiver models + virtual-clock scripted correspondence + trace oracle"),
    "C15": ("C01/C07/C08 theorems are unbounded in the number of blocks; c15_ack_unique_in_window and c15_slide_exact state that an ACK is attributed to exactly one outstanding block across the wrap; "
            "worker-level transfers of 65534..65538 blocks with faults in the wrap window are run through the real code and diffed.", "5/C15",
            "Lean 4 proof (unbounded block count) + long scripted transfers across the wrap"),
    "C16": ("c16_stutter: a worker with repeat count r reaches the same states as with 1 and emits the r-fold stutter of its output (handshake ERROR once); receiver twin; bound from config.rs; "
            "scripted runs with r in {1..4,255} count identical consecutive datagrams.", "5/C16",
            "Lean 4 simulation proof (stutter) + scripted correspondence"),
    "C18": ("c18_read_sequences (every fill/remove sequence keeps the queue an in-order gap-free run of file pieces bounded by size), c18_fill_in_order, c18_no_piece_after_short, c18_remove, c18_add, c18_empty; "
            "the real Window runs exhaustive short and random operation sequences on real files and is compared with the model and with an abstract-queue statement of the contract.", "5/C18",
            "Lean 4 invariant/refinement proof + exhaustive short op sequences on the real Window"),
})
CLAIMED.update({
    "C03": ("c03_convert_relative, c03_validated_is_inside (a validated path resolves, lexically and without symlinks, under the configured directory — for every file name), "
            "c03_refusal_has_no_effect, c03_effects_confined (every worker works on the validated path under the right directory) over the model of server.rs; "
            "the real Server::listen is driven on loopback with names from a path-segment alphabet (exhaustive to length 3/4) and random names, RRQ and WRQ, 8 flag sets, "
            "with decoy files around the served directories and a before/after listing of the whole sandbox.", "5/C03",
            "Lean 4 proof over path/request model + in-process server differential correspondence + sandbox-diff oracle"),
    "C05": ("c05_listen_step / c05_any_history (decoder never panics, receive buffer stays within 516..65468 bytes after every datagram sequence), c05_worker_params (every started worker gets survivable parameters), "
            "c05_probe_independent; hostile batches from several sources followed by a probe request that must be served byte-exactly, in {multi,single} x {ro,rw}; a dying harness process is observed as `abort`. "
            "Partial by nature: heap/thread exhaustion and a closed stdout are runtime behaviour outside the model.", "5/C05",
            "Lean 4 invariant over listener model + hostile-batch differential runs against the in-process server"),
    "C06": ("c06_read_only, c06_no_overwrite, c06_not_found, c06_refusals_from_listener, c06_overwrite_truncates as decision-logic theorems for every name/option list/file system/flag setting; "
            "the full decision table is run against the in-process server with before/after listings.", "5/C06",
            "Lean 4 decision-logic theorems + decision-table differential correspondence"),
    "C09": ("c09_oack_iff, c09_oack_subset, c09_invalid_never_acked, c09_worker_params_sane, c09_worker_uses_last, c09_name_case (+ KELVIN SIGN) over parse_options/accept_request, whose guards are regenerated from the source; "
            "option sets with boundary values, case variants and unknown options x {RRQ,WRQ} x {single,multi}: first reply, DATA lengths and burst length observed on loopback.", "5/C09",
            "Lean 4 proof over option-negotiation model (guards extracted from source) + loopback differential correspondence"),
})
CLAIMED.update({
    "C17": ("c17_groups_parse, c17_last_wins, c17_order_independent (same last occurrence per flag => same configuration, for arbitrary IP/path oracles), c17_invalid_value_is_error, c17_unknown_flag_is_error, "
            "c17_missing_value_is_error, c17_dup_bound, c17_defaults, c17_dir_fallback, c17_help for the server parser; c17_client_groups_parse, c17_client_mode_and_file_last_wins, c17_client_defaults for the client parser. "
            "Config::new / ClientConfig::new run on permutations of flag-group subsets (long/short spellings, invalid values, unknown flags, dangling flags, help) and are compared with the model and with an independent last-occurrence evaluator.", "5/C17",
            "Lean 4 proof (fold over flag groups, last-occurrence characterisation) + permutation correspondence on both parsers"),
})
CLAIMED.update({
    "C04": ("Open system, every arrival history: c04_sender_abort_only_after_budget / c04_receiver_abort_only_after_budget (the only ways to fail), c04_timeout_resends_window, c04_progress_renews_budget, "
            "c04_reack_on_retransmission, c04_accept_renews_budget, c04_six_le_budget. Closed system: c04_closed_loop_safety (every fault schedule: accepted blocks are 1..j of the file, success => identical file, N <= 65535) and the fault-free liveness theorem (C14) are proved; liveness under 1..5 losses is NOT proved, "
            "it is enumerated: the real Worker::send and Worker::receive run in an in-memory FIFO closed loop for every single fault at every position (w 1..4), sampled pairs, random schedules "
            "with up to 5 losses, and must agree with the Lean simulator on outcome, datagram counts and number of time-outs. Partial: real timer skew, reordering in the closed loop.", "5/C04",
            "Lean 4 open-system theorems + exhaustive single-fault enumeration in a real-worker closed loop diffed against the Lean simulator"),
    "C12": ("c12_routing, c12_frame, c12_commute, c12_projection (for every interleaving each transfer's state and output equal its solo run on its own datagrams — for any per-transfer step function), "
            "c12_foreign_nonrequest_gets_error; K scripted clients (downloads, uploads, intruders) interleaved under all/sampled schedules against the in-process server in both port modes, compared per client with the "
            "solo prediction, source-port class included. Partial by nature: thread scheduling, mpsc and socket thread-safety are runtime; same-target uploads are C13.", "5/C12",
            "Lean 4 proof over keyed product of transfers + interleaved multi-client runs against the in-process server"),
    "C13": ("c13_failed_upload (removed if clean-on-error, else a prefix of the bytes received), c13_completed_upload for every reachable receiver state; the second half of the property is false of the code: "
            "c13_stale_cleanup_witness is a kernel-checked history, replayed on two real workers on every run and listed as a known finding (D6); abort at every kind of point x cause x {clean, keep} x windowsize on the real Worker::receive.", "5/C13",
            "Lean 4 proof (single owner) + kernel-checked counter-example replayed on the implementation (known finding)"),
    "C14": ("c14_fault_free_transfer: for every file, block size >= 1 and window size 1..65535 the sender and receiver models connected by loss-free FIFO queues both end successfully with an identical file "
            "(inductive invariant over the scheduler steps, unbounded); c14_client_request, c14_client_adopts_oack, c14_download_target, c14_refusal_creates_nothing, c14_upload_plain_ack_defaults for the client glue; "
            "the models are tied to the code by the real closed loop "
            "(fault-free runs of the real sender against the real receiver over sizes x blksize x windowsize x repeat, diffed against the Lean simulator) plus the real tftpc against the real tftpd "
            "(download/upload x port modes x IPv4/IPv6 x option choices x path forms x refusal). Partial: kernel socket buffers and real timers.", "5/C14",
            "Lean 4 theorems on client glue + real-worker closed loop vs simulator + real binaries on loopback"),
})
PENDING = {}

def main():
    props = [json.loads(l) for l in open(os.path.join(V, "properties.jsonl"))]
    checks, na = [], []
    for p in props:
        pid = p["id"]
        if pid in CLAIMED:
            text, ref, tech = CLAIMED[pid]
            checks.append({
                "property_id": pid,
                "quick_cmd": "./check %s quick" % pid,
                "thorough_cmd": "./check %s thorough" % pid,
                "evidence_file": "evidence/%s.json" % pid,
                "replay_cmd_template": "./check %s --replay {path}" % pid,
                "engine": "lean-proof+correspondence",
                "level_claimed": {"category": "proof", "text": text, "design_ref": "DESIGN.md section " + ref},
                "level_note": NOTE,
                "technique": tech,
            })
        else:
            na.append({"property_id": pid, "reason": PENDING.get(pid, "check not built yet in this round (model and theorems in progress; see DESIGN.md section 5)")})
    m = {
        "version": 1,
        "setup_cmd": "./setup.sh",
        "hooks": {
            "guard": "feature verif (cargo feature of the tftpd crate)",
            "enable": "harness/Cargo.toml depends on /repo with features=[\"client\",\"verif\"]",
            "baseline_off_cmd": "cd /repo && cargo test --workspace --no-fail-fast --offline",
            "source_commits": ["81f621a"],
            "add_only": True,
        },
        "engines": [{
            "name": "lean-proof+correspondence",
            "path": "check",
            "serves_properties": sorted(CLAIMED),
            "kind_free_text": "Lean 4 theorems about a hand-written executable model (lean/Tftp), constants regenerated from /repo by tools/extract.py, "
                              "model tied to the Rust code by a differential harness (harness/) driven by checklib/ generators on every run",
        }],
        "checks": checks,
        "not_applicable": na,
        "notes": "See DESIGN.md. ./check <id> quick|thorough; VERIF_SEED selects the PRNG seed.",
    }
    with open(os.path.join(V, "MANIFEST.json"), "w") as f:
        json.dump(m, f, indent=1)
        f.write("\n")

if __name__ == "__main__":
    main()
