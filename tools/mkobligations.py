#!/usr/bin/env python3
"""lean/obligations.json := every `theorem cNN_*` of lean/Tftp/Props/CNN.lean."""
import json, os, re, glob
V = os.path.dirname(os.path.dirname(os.path.abspath(__file__)))
obl = {}
for p in sorted(glob.glob(os.path.join(V, "lean/Tftp/Props/C*.lean"))):
    pid = os.path.basename(p)[:-5]
    s = open(p).read()
    s = re.sub(r"/-.*?-/", "", s, flags=re.S)
    obl[pid] = ["Tftp." + m for m in re.findall(r"^theorem (c\d\d_\w+)", s, re.M)]
json.dump(obl, open(os.path.join(V, "lean/obligations.json"), "w"), indent=1)
for k, v in obl.items():
    print(k, len(v))
