#!/bin/sh
# usage: tools/regress_seeded.sh [name-prefix]  — re-applies every seeded change to /repo in turn, runs the quick check of the property it
# breaks, and reports whether it is (still) detected; /repo is restored after each one
cd /repo || exit 2
if ! git diff --quiet; then echo "repo dirty"; exit 2; fi
for d in /verif/seeded/${1:-}*/; do
  n=$(basename "$d")
  p=$(python3 -c "import json;print(json.load(open('$d/meta.json'))['breaks_property'])")
  if ! git -C /repo apply "$d/patch.diff" 2>/dev/null; then echo "$n: PATCH DOES NOT APPLY"; continue; fi
  cp "/verif/evidence/$p.json" "/tmp/evidence-$p.json.keep" 2>/dev/null
  out=$(cd /verif && timeout 1500 ./check "$p" quick 2>&1 | grep -E "^(VIOLATION|OK)" | head -1)
  [ -f "/tmp/evidence-$p.json.keep" ] && mv "/tmp/evidence-$p.json.keep" "/verif/evidence/$p.json"
  git -C /repo checkout -- .
  echo "$n [$p]: $out"
done
git -C /repo status --short | head -3
