#!/bin/sh
# usage: tools/regress_seeded.sh [name-prefix]  — re-applies every seeded change to /repo in turn, runs the quick check of the property it
# breaks, and reports whether it is (still) detected; /repo is restored after each one and on every exit path that can be trapped
MARK=/verif/.mutation-in-progress
cd /repo || exit 2
if [ -e "$MARK" ]; then echo "unfinished mutation run: $(cat $MARK) — restore /repo (git -C /repo checkout -- .) and remove $MARK"; exit 2; fi
if ! git diff --quiet || ! git diff --cached --quiet; then echo "repo dirty"; exit 2; fi
restore() { git -C /repo checkout -- . ; rm -f "$MARK"; }
trap 'restore; exit 130' INT TERM HUP
trap 'restore' EXIT
for d in /verif/seeded/${1:-}*/; do
  n=$(basename "$d")
  p=$(python3 -c "import json;print(json.load(open('$d/meta.json'))['breaks_property'])")
  echo "$d/patch.diff" > "$MARK"
  if ! git -C /repo apply "$d/patch.diff" 2>/dev/null; then echo "$n: PATCH DOES NOT APPLY"; rm -f "$MARK"; continue; fi
  cp "/verif/evidence/$p.json" "/tmp/evidence-$p.json.keep" 2>/dev/null
  out=$(cd /verif && timeout 1500 ./check "$p" quick 2>&1 | grep -E "^(VIOLATION|OK)" | head -1)
  [ -f "/tmp/evidence-$p.json.keep" ] && mv "/tmp/evidence-$p.json.keep" "/verif/evidence/$p.json"
  restore
  echo "$n [$p]: $out"
done
git -C /repo status --short | head -3
