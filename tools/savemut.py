#!/usr/bin/env python3
"""usage: savemut.py <name> <prop> <outdir> '<needs>' '<detected-by>' '<what I ran>'"""
import json, os, shutil, sys
name, prop, out, needs, detected, ran = sys.argv[1:7]
d = os.path.join("/verif/seeded", name)
os.makedirs(d, exist_ok=True)
shutil.copy(os.path.join(out, "patch.diff"), os.path.join(d, "patch.diff"))
if os.path.isdir(os.path.join(out, "demo")):
    shutil.rmtree(os.path.join(d, "demo"), ignore_errors=True)
    shutil.copytree(os.path.join(out, "demo"), os.path.join(d, "demo"))
if os.path.exists(os.path.join(out, "notes.md")):
    shutil.copy(os.path.join(out, "notes.md"), os.path.join(d, "notes.md"))
json.dump({"breaks_property": prop, "needs_to_manifest": needs, "detected_by": detected, "confirmed_by_running": ran},
          open(os.path.join(d, "meta.json"), "w"), indent=1)
print("saved", d)
