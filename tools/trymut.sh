#!/bin/sh
# usage: tools/trymut.sh <patch.diff> <prop> [<prop> ...]   — applies a seeded change to /repo, runs the quick checks, reverts
# /repo is restored on every exit path that can be trapped; an unfinished run leaves /verif/.mutation-in-progress behind.
set -u
PATCH=$1; shift
MARK=/verif/.mutation-in-progress
cd /repo || exit 2
if [ -e "$MARK" ]; then echo "unfinished mutation run: $(cat $MARK) — restore /repo (git -C /repo checkout -- .) and remove $MARK"; exit 2; fi
if ! git diff --quiet || ! git diff --cached --quiet; then echo "repo dirty"; exit 2; fi
restore() { git -C /repo checkout -- . ; rm -f "$MARK"; }
trap 'restore; exit 130' INT TERM HUP
trap 'restore' EXIT
echo "$PATCH" > "$MARK"
git apply "$PATCH" || { echo "patch does not apply"; exit 2; }
cd /verif
for p in "$@"; do
  # the evidence file of a run against a modified tree must never replace the one of the unchanged tree
  cp "evidence/$p.json" "/tmp/evidence-$p.json.keep" 2>/dev/null
  timeout 1500 ./check "$p" quick 2>&1 | grep -E "^(VIOLATION|OK|KNOWN)|obligations|cases," | head -8
  [ -f "/tmp/evidence-$p.json.keep" ] && mv "/tmp/evidence-$p.json.keep" "evidence/$p.json"
done
restore
git -C /repo status --short | head -3
