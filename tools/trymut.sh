#!/bin/sh
# usage: tools/trymut.sh <patch.diff> <prop> [<prop> ...]   — applies a seeded change to /repo, runs the quick checks, reverts
set -u
PATCH=$1; shift
cd /repo || exit 2
if ! git diff --quiet; then echo "repo dirty"; exit 2; fi
git apply "$PATCH" || { echo "patch does not apply"; exit 2; }
cd /verif
for p in "$@"; do
  # the evidence file of a run against a modified tree must never replace the one of the unchanged tree
  cp "evidence/$p.json" "/tmp/evidence-$p.json.keep" 2>/dev/null
  timeout 1500 ./check "$p" quick 2>&1 | grep -E "^(VIOLATION|OK|KNOWN)|obligations|cases," | head -8
  [ -f "/tmp/evidence-$p.json.keep" ] && mv "/tmp/evidence-$p.json.keep" "evidence/$p.json"
done
cd /repo && git checkout -- . && git status --short | head -3
