#!/bin/sh
# usage: tools/trymut.sh <patch.diff> <prop> [<prop> ...]   — applies a seeded change to /repo, runs the quick checks, reverts
set -u
PATCH=$1; shift
cd /repo || exit 2
if ! git diff --quiet; then echo "repo dirty"; exit 2; fi
git apply "$PATCH" || { echo "patch does not apply"; exit 2; }
cd /verif
for p in "$@"; do
  timeout 1500 ./check "$p" quick 2>&1 | grep -E "^(VIOLATION|OK|KNOWN)|obligations|cases," | head -8
done
cd /repo && git checkout -- . && git status --short | head -3
