#!/usr/bin/env python3
import json, sys, glob
import jsonschema
jsonschema.validate(json.load(open('/verif/MANIFEST.json')), json.load(open('/root/.vp/MANIFEST.schema.json')))
sch = json.load(open('/root/.vp/EVIDENCE.schema.json'))
for p in sorted(glob.glob('/verif/evidence/*.json')):
    jsonschema.validate(json.load(open(p)), sch)
    print('ok', p)
print('manifest ok')
